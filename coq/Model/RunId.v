(* History machine with identities: pool entries are (content, identities). *)
From Coq Require Import ZArith List String Bool PArith.
From Hgm Require Import NumOps Agg Ops Snap Np Run Forest.
Import ListNotations.
Local Open Scope Z_scope.

Section RunId.
  Context {N : num_ops}.
  Notation agg := (agg N).

  Record world := { nxt : positive; pl : list (agg * itree) }.

  Definition dummy_it : itree := IT 1 1 [] [] None.
  Definition geti (w : world) (i : nat) : agg * itree := nth i (pl w) (Run.dummy, dummy_it).
  Fixpoint seti (p : list (agg * itree)) (i : nat) (x : agg * itree) : list (agg * itree) :=
    match p, i with
    | [], _ => []
    | _ :: p', O => x :: p'
    | y :: p', S i' => y :: seti p' i' x
    end.

  (* ---- replacing the subtree at a path (fixed children only) ---- *)
  Fixpoint sub_agg (a : agg) (p : list nat) : option agg :=
    match p, a with
    | [], _ => Some a
    | i :: p', Node _ _ _ fx _ _ _ => match nth_error fx i with Some c => sub_agg c p' | None => None end
    | _, _ => None
    end.
  Fixpoint sub_it (t : itree) (p : list nat) : option itree :=
    match p, t with
    | [], _ => Some t
    | i :: p', IT _ _ ks _ _ => match nth_error ks i with Some c => sub_it c p' | None => None end
    end.
  Fixpoint upd_nth {A} (l : list A) (i : nat) (x : A) : list A :=
    match l, i with
    | [], _ => []
    | _ :: l', O => x :: l'
    | y :: l', S i' => y :: upd_nth l' i' x
    end.
  Fixpoint put_agg (a : agg) (p : list nat) (x : agg) {struct p} : agg :=
    match p, a with
    | [], _ => x
    | i :: p', Node k q e fx sp tm ct =>
        match nth_error fx i with
        | Some c => Node k q e (upd_nth fx i (put_agg c p' x)) sp tm ct
        | None => a
        end
    | _, _ => a
    end.
  Fixpoint put_it (t : itree) (p : list nat) (x : itree) {struct p} : itree :=
    match p, t with
    | [], _ => x
    | i :: p', IT id c ks ss tm =>
        match nth_error ks i with
        | Some k0 => IT id c (upd_nth ks i (put_it k0 p' x)) ss tm
        | None => t
        end
    end.

  (* identities are observed up to renaming: each one is replaced by the rank of its first
     occurrence in the traversal of the whole pool *)
  Fixpoint rank_of (x : Z) (seen : list Z) (n : Z) : option Z :=
    match seen with
    | [] => None
    | y :: s' => if Z.eqb x y then Some n else rank_of x s' (n + 1)
    end.
  Fixpoint canon_from (l : list Z) (seen : list Z) (cnt : Z) : list Z :=
    match l with
    | [] => []
    | x :: l' =>
        match rank_of x seen 0 with
        | Some r => r :: canon_from l' seen cnt
        | None => cnt :: canon_from l' (seen ++ [x]) (cnt + 1)
        end
    end.
  Definition pids (w : world) : list Z :=
    canon_from (List.concat (map (fun ai => map Zpos (ids (snd ai))) (pl w))) [] 0.

  Inductive iop :=
  | IBase (o : @op N)
  | IShare (i : nat) (p1 p2 : list nat)    (* install the object at p1 also at p2 *)
  | IGraft (i : nat) (p : list nat) (mode : nat).
    (* a new collection over existing objects: mode 0 = Branch(pool i, the object at p inside pool i),
       mode 1 = Label.ed(0, a=x, b=x), mode 2 = Index.ed(0, x, x) with x the object at p *)

  Definition push (w : world) (a : agg) : world * itree :=
    let '(t, n') := fresh_like a (nxt w) in
    ({| nxt := n'; pl := pl w ++ [(a, t)] |}, t).

  Definition obs (r : Z) (a : agg) (w : world) : list Z := r :: snap a ++ [-777] ++ pids w.

  Definition stepi (w : world) (o : iop) : world * list Z :=
    match o with
    | IShare i p1 p2 =>
        let '(a, t) := geti w i in
        match sub_agg a p1, sub_it t p1 with
        | Some xa, Some xt =>
            let a' := put_agg a p2 xa in
            let t' := put_it t p2 xt in
            let w' := {| nxt := nxt w; pl := seti (pl w) i (a', t') |} in
            (w', obs 0 a' w')
        | _, _ => (w, [9])
        end
    | IGraft i p mode =>
        (* the constructor keeps the objects it is given: the new root aliases pool entry i *)
        let '(a, t) := geti w i in
        match sub_agg a p, sub_it t p with
        | Some xa, Some xt =>
            let root := match mode with
                        | O => Node KBranch no_quantity nzero [a; xa] [] None ""
                        | S O => Node (KLabel ["a"; "b"]%string) no_quantity nzero [xa; xa] [] None ""
                        | _ => Node KIndex no_quantity nzero [xa; xa] [] None ""
                        end in
            let rt := match mode with
                      | O => IT (nxt w) (Pos.succ (nxt w)) [t; xt] [] None
                      | _ => IT (nxt w) (Pos.succ (nxt w)) [xt; xt] [] None
                      end in
            let w' := {| nxt := Pos.succ (Pos.succ (nxt w)); pl := pl w ++ [(root, rt)] |} in
            (w', obs 0 root w')
        | _, _ => (w, [9])
        end
    | IBase (ONew a) => let '(w', _) := push w a in (w', obs 0 a w')
    | IBase (OFill i d wt) =>
        let '(a, t) := geti w i in
        if xcheck t then (w, obs 1 a w)          (* ContainerException before any change *)
        else
          let '(a', r) := fill a d wt in
          let '(t', n') := extend t a' (nxt w) in
          let w' := {| nxt := n'; pl := seti (pl w) i (a', t') |} in
          (w', obs (oc r) a' w')
    | IBase (OFillNp i rows) =>
        let '(a, t) := geti w i in
        if xcheck t then (w, obs 1 a w)          (* fillnumpy runs the same guard first *)
        else
          let '(a', r) := fillnp a rows in
          let '(t', n') := extend t a' (nxt w) in
          let w' := {| nxt := n'; pl := seti (pl w) i (a', t') |} in
          (w', obs (oc r) a' w')
    | IBase (OAdd i j) =>
        match add (fst (geti w i)) (fst (geti w j)) with
        | Ok c => let '(w', _) := push w c in (w', obs 0 c w')
        | Err => let '(w', _) := push w Run.dummy in (w', [1])
        end
    | IBase (OIAdd i j) =>
        let '(a, t) := geti w i in
        let '(a', r) := iadd a (fst (geti w j)) in
        let '(t', n') := extend t a' (nxt w) in
        let w' := {| nxt := n'; pl := seti (pl w) i (a', t') |} in
        (w', match r with Done => obs 0 a' w' | Raise => [1] end)
    | IBase (OMul i f) =>
        match mul (fst (geti w i)) f with
        | Ok c => let '(w', _) := push w c in (w', obs 0 c w')
        | Err => let '(w', _) := push w Run.dummy in (w', [1])
        end
    | IBase (OZero i) => let c := zero (fst (geti w i)) in let '(w', _) := push w c in (w', obs 0 c w')
    | IBase (OCopy i) => let c := copy (fst (geti w i)) in let '(w', _) := push w c in (w', obs 0 c w')
    | IBase (OClone i) => let c := fst (geti w i) in let '(w', _) := push w c in (w', obs 0 c w')
    | IBase (OHash i) => (w, [if hashable (fst (geti w i)) then 0 else 1])
    | IBase OSnapAll => (w, pids w)
    | IBase (OToJson _) | IBase (OFromJson _) | IBase (OJsonRT _) | IBase (OEq _ _ _)
    | IBase (OSnapP _) | IBase (OView _ _ _ _) | IBase (ODf _ _) => (w, [9])
    end.

  Fixpoint runi_from (w : world) (ops : list iop) : list (list Z) :=
    match ops with
    | [] => []
    | o :: ops' => let '(w', ob) := stepi w o in ob :: runi_from w' ops'
    end.

  Definition runi (ops : list iop) : list (list Z) := runi_from {| nxt := 1; pl := [] |} ops.
  Definition runi_hash (ops : list iop) : list Z := map (htok 7) (runi ops).
  Definition runi_at (ops : list iop) (j : nat) : list Z := nth j (runi ops) [].
End RunId.
