(* The operations of the library on the aggregator tree: zero, fill, +, +=, *.
   Mutating operations return the state Python leaves behind together with Done/Raise. *)
From Coq Require Import ZArith List String Bool.
From Hgm Require Import NumOps Agg.
Import ListNotations.
Local Open Scope num_scope.

Section Ops.
  Context {N : num_ops}.
  Notation T := (T N).
  Notation agg := (agg N).
  Notation value := (value N).
  Notation datum := (datum N).
  Notation nodekind := (nodekind N).
  Notation quantity := (quantity N).
  Notation qres := (qres N).
  Notation leafstate := (leafstate N).
  Notation bagkey := (bagkey N).

  (* ---------- list combinators (parameters before the fix: nested recursion) ---------- *)
  Section Comb.
    Context {A : Type}.

    (* fill the children that receive a weight, in list order, stopping at the first Raise;
       children that receive none are passed through [g] *)
    Definition fill_list (f : A -> T -> A * outcome) (g : A -> A) :=
      fix go (ws : list (option T)) (l : list A) {struct l} : list A * outcome :=
        match l with
        | [] => ([], Done)
        | a :: l' =>
            match ws with
            | Some w :: ws' =>
                let '(a', o) := f a w in
                match o with
                | Raise => (a' :: map g l', Raise)
                | Done => let '(l'', o') := go ws' l' in (a' :: l'', o')
                end
            | None :: ws' => let '(l'', o') := go ws' l' in (g a :: l'', o')
            | [] => let '(l'', o') := go [] l' in (g a :: l'', o')
            end
        end.

    Definition map2 (f : A -> A -> A) :=
      fix go (l1 l2 : list A) {struct l1} : list A :=
        match l1, l2 with
        | a :: l1', b :: l2' => f a b :: go l1' l2'
        | _, _ => []
        end.

    Definition forall2b (f : A -> A -> bool) :=
      fix go (l1 l2 : list A) {struct l1} : bool :=
        match l1, l2 with
        | [], [] => true
        | a :: l1', b :: l2' => f a b && go l1' l2'
        | _, _ => false
        end.

    (* in-place pairwise merge, stopping at the first Raise *)
    Definition iadd_list (f : A -> A -> A * outcome) :=
      fix go (l1 l2 : list A) {struct l1} : list A * outcome :=
        match l1, l2 with
        | a :: l1', b :: l2' =>
            let '(a', o) := f a b in
            match o with
            | Raise => (a' :: l1', Raise)
            | Done => let '(l'', o') := go l1' l2' in (a' :: l'', o')
            end
        | _, _ => (l1, Done)
        end.

    (* sparse children: modify the child stored under k with f, or create it with mk; a new
       child is inserted only after its own fill succeeded *)
    Definition sp_fill {K : Type} (cmp : K -> K -> comparison) (f : A -> A * outcome)
               (mk : unit -> A * outcome) (k : K) :=
      fix go (l : list (K * A)) {struct l} : list (K * A) * outcome :=
        match l with
        | [] => let '(c, o) := mk tt in
                match o with Done => ([(k, c)], Done) | Raise => ([], Raise) end
        | (k', v) :: l' =>
            match cmp k k' with
            | Eq => let '(v', o) := f v in ((k', v') :: l', o)
            | Lt => let '(c, o) := mk tt in
                    match o with Done => ((k, c) :: l, Done) | Raise => (l, Raise) end
            | Gt => let '(l'', o) := go l' in ((k', v) :: l'', o)
            end
        end.

    (* union of two key-sorted lists; f on common keys, g1/g2 on keys of one side only *)
    Definition sl_merge {K : Type} (cmp : K -> K -> comparison) (f : A -> A -> A)
               (g1 g2 : A -> A) :=
      fix go (l1 : list (K * A)) {struct l1} : list (K * A) -> list (K * A) :=
        fix go2 (l2 : list (K * A)) {struct l2} : list (K * A) :=
          match l1, l2 with
          | [], _ => map (fun kv => (fst kv, g2 (snd kv))) l2
          | _, [] => map (fun kv => (fst kv, g1 (snd kv))) l1
          | (k1, a) :: l1', (k2, b) :: l2' =>
              match cmp k1 k2 with
              | Eq => (k1, f a b) :: go l1' l2'
              | Lt => (k1, g1 a) :: go l1' l2
              | Gt => (k2, g2 b) :: go2 l2'
              end
          end.

    (* the checks performed on common keys *)
    Definition sl_common {K : Type} (cmp : K -> K -> comparison) (f : A -> A -> bool) :=
      fix go (l1 : list (K * A)) {struct l1} : list (K * A) -> bool :=
        fix go2 (l2 : list (K * A)) {struct l2} : bool :=
          match l1, l2 with
          | [], _ => true
          | _, [] => true
          | (k1, a) :: l1', (k2, b) :: l2' =>
              match cmp k1 k2 with
              | Eq => f a b && go l1' l2'
              | Lt => go l1' l2
              | Gt => go2 l2'
              end
          end.
  End Comb.

  (* ---------- zero ---------- *)
  Fixpoint zero (a : agg) : agg :=
    match a with
    | Leaf k q _ => Leaf k q (leaf_zero k)
    | Node k q _ fx _ tm ct => Node k q nzero (map zero fx) [] tm ct
    end.

  (* ---------- routing ---------- *)
  Inductive routed := RErr | RTo (ws : list (option T)) (sk : option (key * T)).

  Definition only (n i : nat) (w : T) : list (option T) :=
    map (fun j => if Nat.eqb j i then Some w else None) (seq 0 n).

  Definition long_max : Z := 9223372036854775807.

  (* CentrallyBin.index: first i (not the last) with x < (c_i + c_{i+1})/2, else the last *)
  Fixpoint central_index (cs : list T) (x : T) (i : nat) : nat :=
    match cs with
    | c1 :: ((c2 :: _) as rest) =>
        if x <? (c1 + c2) / ntwo then i else central_index rest x (S i)
    | _ => i
    end.

  (* IrregularlyBin.fill: first i with x >= t_i and not x >= t_{i+1} (t_{n} = nan) *)
  Fixpoint irr_index (ts : list T) (x : T) (i : nat) : option nat :=
    match ts with
    | [] => None
    | t1 :: rest =>
        let nxt := match rest with t2 :: _ => t2 | [] => nnan end in
        if (t1 <=? x) && negb (nxt <=? x) then Some i else irr_index rest x (S i)
    end.

  Definition has_quantity (k : nodekind) : bool :=
    match k with KLabel _ | KULabel _ | KIndex | KBranch => false | _ => true end.

  (* n = number of fixed children *)
  Definition route (k : nodekind) (n : nat) (v : value) (w : T) : routed :=
    match k with
    | KBin low high =>
        match as_real v with
        | None => RErr
        | Some x =>
            let num := (n - 3)%nat in
            if nisnan x then RTo (only n (num + 2) w) None
            else if x <? low then RTo (only n num w) None
            else if high <=? x then RTo (only n (num + 1) w) None
            else
              match nfloor ((nofZ (Z.of_nat num) * (x - low)) / (high - low)) with
              | None => RErr
              | Some i0 =>
                  (* Bin.bin: min(floor(...), num - 1); then Python list indexing: negative
                     indexes wrap, out of range raises *)
                  let i := Z.min i0 (Z.of_nat num - 1) in
                  let i' := if (i <? 0)%Z then (i + Z.of_nat num)%Z else i in
                  if ((0 <=? i') && (i' <? Z.of_nat num))%Z
                  then RTo (only n (Z.to_nat i') w) None else RErr
              end
        end
    | KSparse bw origin =>
        match as_real v with
        | None => RErr
        | Some x =>
            if nisnan x then RTo [Some w] None
            else
              let soft := (x - origin) / bw in
              if soft <=? nofZ (- long_max) then RTo [None] (Some (KInt (- long_max)%Z, w))
              else if nofZ long_max <=? soft then RTo [None] (Some (KInt long_max, w))
              else match nfloor soft with
                   | Some b => RTo [None] (Some (KInt b, w))
                   | None => RErr
                   end
        end
    | KCentral cs =>
        match as_real v with
        | None => RErr
        | Some x =>
            if nisnan x then RTo (only n (n - 1) w) None
            else RTo (only n (central_index cs x 0) w) None
        end
    | KIrr ts =>
        match as_real v with
        | None => RErr
        | Some x =>
            if nisnan x then RTo (only n (n - 1) w) None
            else match irr_index ts x 0 with
                 | Some i => RTo (only n i w) None
                 | None => RTo (map (fun _ => None) (seq 0 n)) None
                 end
        end
    | KStack ts =>
        match as_real v with
        | None => RErr
        | Some x =>
            if nisnan x then RTo (only n (n - 1) w) None
            else RTo (map (fun t => if t <=? x then Some w else None) ts ++ [None]) None
        end
    | KFraction =>
        match as_real v with
        | None => RErr
        | Some x =>
            let wq := x * w in
            RTo [Some w; if pos wq then Some wq else None] None
        end
    | KSelect =>
        match as_real v with
        | None => RErr
        | Some x =>
            let wq := x * w in
            RTo [if pos wq then Some wq else None] None
        end
    | KCat =>
        match v with
        | VStr s => RTo [] (Some (KStr s, w))
        | VBool b => RTo [] (Some (KBool b, w))
        | VNone => RTo [] (Some (KStr "NaN", w))
        | VNum x => if nisnan x then RTo [] (Some (KStr "NaN", w)) else RErr
        | VVec _ => RErr
        end
    | KLabel _ | KULabel _ | KIndex | KBranch =>
        RTo (map (fun _ => Some w) (seq 0 n)) None
    end.

  (* ---------- fill ----------
     [fillz true a] behaves as [fillz false (zero a)] (lemma fillz_zero in Proofs/); it exists so
     that "create the sparse child from the template, then fill it" is structural recursion. *)
  Fixpoint fillz (z : bool) (a : agg) (d : datum) (w : T) {struct a} : agg * outcome :=
    let a0 := if z then zero a else a in
    if negb (pos w) then (a0, Done) else
    match a with
    | Leaf k q s =>
        let s0 := if z then leaf_zero k else s in
        match k with
        | LCount _ =>
            match leaf_fill k s0 VNone w with
            | Some s' => (Leaf k q s', Done)
            | None => (a0, Raise)
            end
        | _ =>
            match qfn q d with
            | QRaise => (a0, Raise)
            | QV v =>
                match leaf_fill k s0 v w with
                | Some s' => (Leaf k q s', Done)
                | None => (a0, Raise)
                end
            end
        end
    | Node k q e fx sp tm ct =>
        let e0 := if z then nzero else e in
        let sp0 := if z then [] else sp in
        let qv := if has_quantity k then qfn q d else QV VNone in
        match qv with
        | QRaise => (a0, Raise)
        | QV v =>
            match route k (List.length fx) v w with
            | RErr => (a0, Raise)
            | RTo ws sk =>
                let '(fx', o1) :=
                  fill_list (fun c w' => fillz z c d w') (fun c => if z then zero c else c) ws fx in
                match o1 with
                | Raise => (Node k q e0 fx' sp0 tm ct, Raise)
                | Done =>
                    match sk with
                    | None => (Node k q (e0 + w) fx' sp0 tm ct, Done)
                    | Some (key, w') =>
                        match tm with
                        | None =>
                            (* immutable container: an existing bin can be reached, a new one
                               cannot be created (self.value is None) *)
                            if z then (Node k q e0 fx' [] tm ct, Raise) else
                            match sl_lookup key_cmp key sp with
                            | None => (Node k q e0 fx' sp tm ct, Raise)
                            | Some _ =>
                                let '(sp', o2) :=
                                  sp_fill key_cmp (fun c => fillz false c d w')
                                          (fun _ => (Leaf LSum q (leaf_zero LSum), Raise)) key sp in
                                match o2 with
                                | Raise => (Node k q e0 fx' sp' tm ct, Raise)
                                | Done => (Node k q (e0 + w) fx' sp' tm ct, Done)
                                end
                            end
                        | Some t =>
                            let '(sp', o2) :=
                              if z then (let '(c, o) := fillz true t d w' in
                                         match o with Done => ([(key, c)], Done) | Raise => ([], Raise) end)
                              else sp_fill key_cmp (fun c => fillz false c d w')
                                           (fun _ => fillz true t d w') key sp in
                            match o2 with
                            | Raise => (Node k q e0 fx' sp' tm ct, Raise)
                            | Done => (Node k q (e0 + w) fx' sp' tm ct, Done)
                            end
                        end
                    end
                end
            end
        end
    end.

  Definition fill (a : agg) (d : datum) (w : T) : agg * outcome := fillz false a d w.

  Definition fills (a : agg) (s : list (datum * T)) : agg :=
    fold_left (fun acc dw => fst (fill acc (fst dw) (snd dw))) s a.

  (* ---------- + ---------- *)
  Definition leafkind_compat (k1 k2 : leafkind) : bool :=
    match k1, k2 with
    | LCount _, LCount _ => true
    | LSum, LSum | LAverage, LAverage | LDeviate, LDeviate | LMin, LMin | LMax, LMax => true
    | LBag RS, LBag RS | LBag RN, LBag RN => true
    | LBag (RV n), LBag (RV m) => Nat.eqb n m
    | _, _ => false
    end.

  Fixpoint list_eqb {A} (f : A -> A -> bool) (l1 l2 : list A) : bool :=
    match l1, l2 with
    | [], [] => true
    | a :: l1', b :: l2' => f a b && list_eqb f l1' l2'
    | _, _ => false
    end.

  (* the parameter tests at the top of each __add__ / __iadd__ *)
  Definition kind_compat (k1 k2 : nodekind) : bool :=
    match k1, k2 with
    | KBin l1 h1, KBin l2 h2 => (l1 =? l2) && (h1 =? h2)
    | KSparse b1 o1, KSparse b2 o2 => (b1 =? b2) && (o1 =? o2)
    | KCentral c1, KCentral c2 => list_eqb neqb c1 c2
    | KIrr t1, KIrr t2 => list_eqb neqb t1 t2
    | KStack t1, KStack t2 => list_eqb neqb t1 t2
    | KFraction, KFraction | KSelect, KSelect | KCat, KCat => true
    | KLabel a, KLabel b => list_eqb String.eqb a b
    | KULabel a, KULabel b => list_eqb String.eqb a b
    | KIndex, KIndex | KBranch, KBranch => true
    | _, _ => false
    end.

  (* SparselyBin and Categorize also compare the declared type of their bins *)
  Definition ct_compat (k : nodekind) (ct1 ct2 : string) : bool :=
    match k with KSparse _ _ | KCat => String.eqb ct1 ct2 | _ => true end.

  (* does a + b return (true) or raise (false) *)
  Fixpoint addable (a b : agg) {struct a} : bool :=
    match a, b with
    | Leaf k1 _ _, Leaf k2 _ _ => leafkind_compat k1 k2
    | Node k1 _ _ fx1 sp1 _ ct1, Node k2 _ _ fx2 sp2 _ ct2 =>
        kind_compat k1 k2 && ct_compat k1 ct1 ct2 && forall2b addable fx1 fx2
        && sl_common key_cmp addable sp1 sp2
    | _, _ => false
    end.

  Fixpoint add_t (a b : agg) {struct a} : agg :=
    match a, b with
    | Leaf k q s1, Leaf _ _ s2 => Leaf k q (leaf_add k s1 s2)
    | Node k q e1 fx1 sp1 tm ct, Node _ _ e2 fx2 sp2 _ _ =>
        Node k q (e1 + e2) (map2 add_t fx1 fx2)
             (sl_merge key_cmp add_t (fun x => x) (fun x => x) sp1 sp2) tm ct
    | _, _ => a
    end.

  Inductive res (A : Type) := Ok (x : A) | Err.
  Arguments Ok {A}. Arguments Err {A}.

  Definition add (a b : agg) : res agg := if addable a b then Ok (add_t a b) else Err.
  Definition copy (a : agg) : agg := add_t a (zero a).

  (* ---------- += (in place, mutating as it goes) ---------- *)
  Fixpoint iadd (a b : agg) {struct a} : agg * outcome :=
    match a, b with
    | Leaf k1 q s1, Leaf k2 _ s2 =>
        if leafkind_compat k1 k2 then (Leaf k1 q (leaf_add k1 s1 s2), Done) else (a, Raise)
    | Node k1 q e1 fx1 sp1 tm ct, Node k2 _ e2 fx2 sp2 _ ct2 =>
        if kind_compat k1 k2 && ct_compat k1 ct ct2 && Nat.eqb (List.length fx1) (List.length fx2) then
          (* entries first, then the children, each in place *)
          let e := e1 + e2 in
          let '(sp', o1) :=
            (* sparse children of a container are merged before its nanflow *)
            if sl_common key_cmp addable sp1 sp2
            then (sl_merge key_cmp add_t (fun x => x) (fun x => x) sp1 sp2, Done)
            else (sp1, Raise) in
          match o1 with
          | Raise => (Node k1 q e fx1 sp' tm ct, Raise)
          | Done =>
              let '(fx', o2) := iadd_list iadd fx1 fx2 in
              (Node k1 q e fx' sp' tm ct, o2)
          end
        else (a, Raise)
    | _, _ => (a, Raise)
    end.

  (* ---------- hash ----------
     __hash__ sorts the (key, child) pairs of a Categorize; Python 3 refuses to compare a bool
     key with a str key, so hash() raises TypeError exactly when both kinds of key are present *)
  Definition is_bool_key (kc : key * agg) : bool :=
    match fst kc with KBool _ => true | _ => false end.
  Definition is_str_key (kc : key * agg) : bool :=
    match fst kc with KStr _ => true | _ => false end.

  Fixpoint hashable (a : agg) : bool :=
    match a with
    | Leaf _ _ _ => true
    | Node k _ _ fx sp _ _ =>
        forallb hashable fx && forallb (fun kc => hashable (snd kc)) sp &&
        match k with
        | KCat => negb (existsb is_bool_key sp && existsb is_str_key sp)
        | _ => true
        end
    end.

  (* ---------- * ---------- *)
  Fixpoint scalable (a : agg) : bool :=
    match a with
    | Leaf (LCount TSq) _ _ => false
    | Leaf _ _ _ => true
    | Node _ _ _ fx sp _ _ =>
        forallb scalable fx && forallb (fun kc => scalable (snd kc)) sp
    end.

  Fixpoint mul_t (a : agg) (f : T) : agg :=
    match a with
    | Leaf k q s => Leaf k q (leaf_mul k s f)
    | Node k q e fx sp tm ct =>
        Node k q (f * e) (map (fun c => mul_t c f) fx)
             (map (fun kc => (fst kc, mul_t (snd kc) f)) sp) tm ct
    end.

  Definition mul (a : agg) (f : T) : res agg :=
    if nisnan f || (f <=? nzero) then
      match a with
      | Leaf (LCount TSq) _ _ => Err
      | _ => Ok (zero a)
      end
    else if scalable a then Ok (mul_t a f) else Err.

End Ops.

Arguments Ok {A}. Arguments Err {A}.
